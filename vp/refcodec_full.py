"""
refcodec_full -- the rest of the EtherNet/IP CIP grammar on top of vp/refcodec.py (owned by the C01 check).

Same rules as refcodec: written from the layout tables (the docstring tables in cpppo's parser.py / device.py /
logix.py / defaults.py and the CIP volumes they cite) with `struct` only; nothing is imported from cpppo.
Messages are plain JSON-able dicts.  `enc_*` return bytes; `dec_*` are strict decoders (RefDecodeError).

Model
-----
segments      list of {'class'|'instance'|'attribute'|'element'|'connection': n [, '_width': 8|16|32]}
              | {'symbolic': str} | {'port': n, 'link': int|str}
typed         {'type': 'BOOL'|'SINT'|...|'STRING'|'SSTRING', 'values': [...]}      (REAL/LREAL values: float, or
              'f64:<16 hex>' = the IEEE-754 double handed to the encoder)
              {'type': 'STRUCT', 'structure_tag': n, 'raw': hex}                   (opaque UDT payload)
status        'status': n, 'ext': [uint16...]
mr message    {'svc': <name>, 'dir': 'req'|'rpy', ...}           see enc_mr
wrapper       {'k': 'usend', 'send_path', 'priority', 'timeout_ticks', 'message': M, 'route_path': [...]}
              {'k': 'usend_error', 'status', 'ext'}              (0xD2 reply of a failed Unconnected Send)
              {'k': 'bare', 'message': M}   M = mr message | {'raw': hex}
CPF item      {'t': 'null'} {'t': 'conn_addr', 'connection'} {'t': 'conn_data', 'sequence', 'payload': M}
              {'t': 'unconn_data', 'payload': wrapper} {'t': 'comm_service', 'version', 'capability', 'name'}
              {'t': 'identity', ...} {'t': 'legacy', ...} {'t': 'unknown', 'type_id', 'data': hex}
command       {'cmd': 'register'|'unregister'|'list_services'|'list_identity'|'list_interfaces'|'legacy'|
               'send_rr_data'|'send_unit_data', ...}
frame         {'session', 'status', 'context': hex16, 'options', 'command': command}
"""
from __future__ import annotations

import struct

from . import refcodec as rc
from .refcodec import RefDecodeError, _need

STRUCT_CODE = 0x02A0
TYPE_NAMES = ['BOOL', 'SINT', 'INT', 'DINT', 'LINT', 'USINT', 'UINT', 'UDINT', 'ULINT', 'REAL', 'LREAL',
              'STRING', 'SSTRING', 'STRUCT']       # the 14 element types of typed_data


def tcode(t):
    return STRUCT_CODE if t == 'STRUCT' else rc.tcode(t)


def tname(code):
    return 'STRUCT' if code == STRUCT_CODE else rc.tname(code)


# ------------------------------------------------------------------------------------------------
# scalars that must survive JSON


def to_float(v):
    """float | 'f64:<16 hex digits of the big-endian IEEE double>' -> float"""
    if isinstance(v, str):
        assert v.startswith('f64:'), v
        return struct.unpack('>d', bytes.fromhex(v[4:]))[0]
    return float(v)


def from_float(x):
    return 'f64:' + struct.pack('>d', x).hex()


def py_value(t, v):
    return to_float(v) if t in ('REAL', 'LREAL') else v


# ------------------------------------------------------------------------------------------------
# typed data


def enc_typed(typed):
    """The data part of a typed payload (no 16-bit type code): elements back to back; STRUCT: 16-bit
    structure handle then the raw bytes."""
    t = typed['type']
    if t == 'STRUCT':
        return struct.pack('<H', typed['structure_tag']) + bytes.fromhex(typed['raw'])
    return rc.enc_values(t, [py_value(t, v) for v in typed['values']])


def enc_typed_prefixed(typed):
    """type code (UINT) + data, as in a Read Tag [Fragmented] reply."""
    return struct.pack('<H', tcode(typed['type'])) + enc_typed(typed)


def dec_typed(t, raw):
    t = tname(t) if not isinstance(t, str) else t
    if t == 'STRUCT':
        _need(len(raw) >= 2, 'STRUCT without structure handle')
        return {'type': 'STRUCT', 'structure_tag': struct.unpack_from('<H', raw, 0)[0], 'raw': bytes(raw[2:]).hex()}
    vals = rc.dec_values(t, raw)
    if t in ('REAL', 'LREAL'):
        vals = [from_float(v) for v in vals]
    return {'type': t, 'values': vals}


def wire_values(typed):
    """What a decoder yields for the elements actually on the wire (BOOL -> bool, REAL rounded to float32,
    floats compared by their float64 bit pattern)."""
    t = typed['type']
    out = dec_typed(t, enc_typed(typed))
    return out


IFACE_KEYS = ('ip_address', 'network_mask', 'gateway_address', 'dns_primary', 'dns_secondary')


def enc_ifaceaddrs(m):
    """TCP/IP Interface Object attribute 5 (Vol 2 5-4.3.2.5): five UDINT addresses then the domain name as a
    STRING (UINT length, octets, pad to even).  Each UDINT is the address 'a.b.c.d' read as the integer
    a<<24|b<<16|c<<8|d, little-endian on the wire like every CIP UDINT."""
    return b''.join(struct.pack('<I', ip_int(m[k])) for k in IFACE_KEYS) + rc.enc_value('STRING', m['domain_name'])


# ------------------------------------------------------------------------------------------------
# EPATH variants


def enc_epath(segments, variant='plain'):
    if variant == 'single':
        assert len(segments) == 1
        return rc.enc_segments(segments)
    return rc.enc_epath(segments, padded=(variant == 'padded'))


def epath_words(segments):
    return len(rc.enc_segments(segments)) // 2


def dec_epath(raw, variant='plain'):
    raw = bytes(raw)
    if variant == 'single':
        segs = rc.dec_segments(raw)
        _need(len(segs) == 1, 'single EPATH holds %d segments' % len(segs))
        return segs
    segs, pos = rc.dec_epath(raw, 0, padded=(variant == 'padded'))
    _need(pos == len(raw), 'trailing bytes after EPATH')
    return segs


# ------------------------------------------------------------------------------------------------
# Network Connection Parameters (Forward Open)


def enc_ncp(c, large):
    """Vol 1 3-5.5.1.1: small = 16-bit word  R|TT|r|PP|V|size(9);  large = the same seven control bits in the
    upper word, bits 24-16 reserved, size in the lower 16 bits."""
    ctl = (c['redundant'] << 15) | (c['type'] << 13) | (c['priority'] << 10) | (c['variable'] << 9)
    if large:
        assert 0 <= c['size'] <= 0xFFFF
        return (ctl << 16) | c['size']
    assert 0 <= c['size'] <= 0x1FF
    return ctl | c['size']


def dec_ncp(ncp, large):
    hi = (ncp >> 16) if large else ncp
    return {'redundant': (hi >> 15) & 1, 'type': (hi >> 13) & 3, 'priority': (hi >> 10) & 3,
            'variable': (hi >> 9) & 1, 'size': (ncp & 0xFFFF) if large else (ncp & 0x1FF)}


# ------------------------------------------------------------------------------------------------
# Message Router requests and replies

SVC = dict(rc.SVC)
SVC_REV = {v: k for k, v in SVC.items()}
SVC_REV[0x5B] = 'forward_open'
READ_DATA_STATUS = (0x00, 0x06)         # replies that carry type + data
MULTI_DATA_STATUS = (0x00, 0x1E)        # Multiple Service replies that carry members


def service_code(m):
    if m['svc'] == 'forward_open':
        return 0x5B if m.get('large') else 0x54
    return SVC[m['svc']]


def enc_message(M):
    """M: mr message or {'raw': hex}"""
    if 'raw' in M and 'svc' not in M:
        return bytes.fromhex(M['raw'])
    return enc_mr(M)


def enc_mr(m):
    svc, req = m['svc'], m['dir'] == 'req'
    code = service_code(m)
    if req:
        head = struct.pack('B', code) + rc.enc_epath(m['path'])
    else:
        head = struct.pack('BB', code | 0x80, 0) + rc.enc_status(m['status'], m.get('ext', ()))
    if svc == 'read_tag':
        if req:
            return head + struct.pack('<H', m['elements'])
        return head + (enc_typed_prefixed(m['data']) if m['status'] in READ_DATA_STATUS else b'')
    if svc == 'read_frag':
        if req:
            return head + struct.pack('<HI', m['elements'], m['offset'])
        return head + (enc_typed_prefixed(m['data']) if m['status'] in READ_DATA_STATUS else b'')
    if svc in ('write_tag', 'write_frag'):
        if not req:
            return head
        d = m['data']
        out = head + struct.pack('<H', tcode(d['type']))
        body = enc_typed(d)
        if d['type'] == 'STRUCT':       # type, structure handle, element count [, offset], data
            out += body[:2]
            body = body[2:]
        out += struct.pack('<H', m['elements'])
        if svc == 'write_frag':
            out += struct.pack('<I', m['offset'])
        return out + body
    if svc in ('get_attribute_single', 'get_attributes_all'):
        if req:
            return head
        return head + (bytes.fromhex(m['raw']) if m['status'] == 0 else b'')
    if svc == 'set_attribute_single':
        return head + (bytes.fromhex(m['raw']) if req else b'')
    if svc == 'get_attribute_list':
        if req:
            return head + struct.pack('<H', len(m['attributes'])) + b''.join(struct.pack('<H', a) for a in m['attributes'])
        if m['status'] != 0:
            return head
        if 'items' not in m:            # as decoded: the items cannot be delimited without the attribute types
            return head + bytes.fromhex(m['raw'])
        out = head + struct.pack('<H', len(m['items']))
        for attr, st, value in m['items']:
            out += struct.pack('<HH', attr, st) + bytes.fromhex(value)
        return out
    if svc == 'multiple':
        if not req and m['status'] not in MULTI_DATA_STATUS:
            return head
        return head + rc.enc_multiple_body([enc_mr(x) for x in m['members']])
    if svc == 'forward_open':
        large = bool(m.get('large'))
        if req:
            ncp = '<I' if large else '<H'
            out = head + struct.pack('<BBIIHHIB3x', m['priority_time_tick'], m['timeout_ticks'],
                                     m['O_T']['connection_ID'], m['T_O']['connection_ID'], m['connection_serial'],
                                     m['O_vendor'], m['O_serial'], m['connection_timeout_multiplier'])
            out += struct.pack('<I', m['O_T']['RPI']) + struct.pack(ncp, enc_ncp(m['O_T'], large))
            out += struct.pack('<I', m['T_O']['RPI']) + struct.pack(ncp, enc_ncp(m['T_O'], large))
            out += struct.pack('B', m['transport_class_triggers'])
            return out + rc.enc_epath(m['connection_path'])
        if m['status'] == 0:
            app = bytes.fromhex(m['application'])
            assert len(app) % 2 == 0 and len(app) // 2 < 256
            return head + struct.pack('<IIHHIIIBB', m['O_T_connection_ID'], m['T_O_connection_ID'],
                                      m['connection_serial'], m['O_vendor'], m['O_serial'], m['O_T_API'],
                                      m['T_O_API'], len(app) // 2, 0) + app
        out = head + struct.pack('<HHI', m['connection_serial'], m['O_vendor'], m['O_serial'])
        if m.get('remaining_path_size') is not None:
            out += struct.pack('BB', m['remaining_path_size'], 0)
        return out
    if svc == 'forward_close':
        if req:
            return head + struct.pack('<BBHHI', m['priority_time_tick'], m['timeout_ticks'], m['connection_serial'],
                                      m['O_vendor'], m['O_serial']) + rc.enc_epath(m['connection_path'], padded=True)
        body = m.get('body')
        if body is None:
            return head
        app = bytes.fromhex(body['application'])
        assert len(app) % 2 == 0 and len(app) // 2 < 256
        return head + struct.pack('<HHIBB', body['connection_serial'], body['O_vendor'], body['O_serial'],
                                  len(app) // 2, 0) + app
    raise AssertionError('unknown service %r' % (svc,))


def dec_mr(raw, members=True):
    """Strict decode of one Message Router request/reply into the model above.  Get Attribute List replies are
    returned with 'raw' (their items cannot be delimited without knowing the attribute types)."""
    raw = bytes(raw)
    _need(len(raw) >= 2, 'message shorter than 2 bytes')
    code = raw[0]
    base = code & 0x7F
    _need(base in SVC_REV, 'unknown service 0x%02x' % code)
    svc = SVC_REV[base]
    m = {'svc': svc}
    if svc == 'forward_open':
        m['large'] = base == 0x5B
    if code & 0x80:
        r = rc.dec_mr_reply(raw)
        m.update(dir='rpy', status=r['status'], ext=r['ext'])
        d = r['data']
        if svc in ('read_tag', 'read_frag'):
            if r['status'] in READ_DATA_STATUS:
                _need(len(d) >= 2, 'read reply without type')
                m['data'] = dec_typed(struct.unpack_from('<H', d, 0)[0], d[2:])
            else:
                _need(not d, 'data after failed read reply')
        elif svc in ('write_tag', 'write_frag', 'set_attribute_single'):
            _need(not d, 'data after %s reply' % svc)
        elif svc in ('get_attribute_single', 'get_attributes_all', 'get_attribute_list'):
            if r['status'] == 0:
                m['raw'] = d.hex()
            else:
                _need(not d, 'data after failed %s reply' % svc)
        elif svc == 'multiple':
            if r['status'] in MULTI_DATA_STATUS:
                parts = rc.dec_multiple_body(d)
                m['members'] = [dec_mr(p) for p in parts] if members else [{'raw': p.hex()} for p in parts]
            else:
                _need(not d, 'data after failed multiple reply')
        elif svc == 'forward_open':
            if r['status'] == 0:
                f = rc.dec_forward_open_reply(r)
                m.update(O_T_connection_ID=f['O_T_connection_ID'], T_O_connection_ID=f['T_O_connection_ID'],
                         connection_serial=f['connection_serial'], O_vendor=f['O_vendor'], O_serial=f['O_serial'],
                         O_T_API=f['O_T_API'], T_O_API=f['T_O_API'], application=f['application'].hex())
            else:
                _need(len(d) in (8, 10), 'forward open failure body is %d bytes' % len(d))
                cs, ov, os_ = struct.unpack_from('<HHI', d, 0)
                m.update(connection_serial=cs, O_vendor=ov, O_serial=os_, remaining_path_size=None)
                if len(d) == 10:
                    _need(d[9] == 0, 'reserved byte after remaining path size')
                    m['remaining_path_size'] = d[8]
        elif svc == 'forward_close':
            if not d:
                m['body'] = None
            else:
                _need(len(d) >= 10, 'forward close reply truncated')
                cs, ov, os_, words, rsv = struct.unpack_from('<HHIBB', d, 0)
                _need(rsv == 0 and len(d) == 10 + 2 * words, 'forward close reply malformed')
                m['body'] = {'connection_serial': cs, 'O_vendor': ov, 'O_serial': os_, 'application': d[10:].hex()}
        return m
    r = rc.dec_mr_request(raw)
    m.update(dir='req', path=r['path'])
    d = r['data']
    if svc == 'read_tag':
        _need(len(d) == 2, 'read tag request data is %d bytes' % len(d))
        m['elements'] = struct.unpack('<H', d)[0]
    elif svc == 'read_frag':
        _need(len(d) == 6, 'read frag request data is %d bytes' % len(d))
        m['elements'], m['offset'] = struct.unpack('<HI', d)
    elif svc in ('write_tag', 'write_frag'):
        _need(len(d) >= 4, 'write request truncated')
        code = struct.unpack_from('<H', d, 0)[0]
        pos = 2
        tag = b''
        if code == STRUCT_CODE:
            tag = d[2:4]
            pos = 4
        _need(len(d) >= pos + (2 if svc == 'write_tag' else 6), 'write request truncated')
        m['elements'] = struct.unpack_from('<H', d, pos)[0]
        pos += 2
        if svc == 'write_frag':
            m['offset'] = struct.unpack_from('<I', d, pos)[0]
            pos += 4
        m['data'] = dec_typed(code, tag + d[pos:])
    elif svc in ('get_attribute_single', 'get_attributes_all'):
        _need(not d, 'data after %s request' % svc)
    elif svc == 'set_attribute_single':
        m['raw'] = d.hex()
    elif svc == 'get_attribute_list':
        _need(len(d) >= 2, 'attribute count missing')
        n = struct.unpack_from('<H', d, 0)[0]
        _need(len(d) == 2 + 2 * n, 'attribute list length mismatch')
        m['attributes'] = list(struct.unpack_from('<%dH' % n, d, 2)) if n else []
    elif svc == 'multiple':
        parts = rc.dec_multiple_body(d)
        m['members'] = [dec_mr(p) for p in parts] if members else [{'raw': p.hex()} for p in parts]
    elif svc == 'forward_open':
        large = m['large']
        fmt = '<IIIIB' if large else '<IHIHB'
        fixed = 22 + struct.calcsize(fmt)       # 35 small / 39 large bytes before the connection path size
        _need(len(d) > fixed, 'forward open truncated')
        pt, tt, otid, toid, cs, ov, os_, mult, r1, r2, r3 = struct.unpack_from('<BBIIHHIBBBB', d, 0)
        _need(r1 == r2 == r3 == 0, 'forward open reserved bytes non-zero')
        otrpi, otncp, torpi, toncp, tct = struct.unpack_from(fmt, d, 22)
        segs, pos = rc.dec_epath(d, fixed)
        _need(pos == len(d), 'trailing bytes after connection path')
        m.update(priority_time_tick=pt, timeout_ticks=tt, connection_serial=cs, O_vendor=ov, O_serial=os_,
                 connection_timeout_multiplier=mult, transport_class_triggers=tct, connection_path=segs,
                 O_T=dict(dec_ncp(otncp, large), connection_ID=otid, RPI=otrpi),
                 T_O=dict(dec_ncp(toncp, large), connection_ID=toid, RPI=torpi))
    elif svc == 'forward_close':
        _need(len(d) >= 12, 'forward close truncated')
        pt, tt, cs, ov, os_ = struct.unpack_from('<BBHHI', d, 0)
        segs, pos = rc.dec_epath(d, 10, padded=True)
        _need(pos == len(d), 'trailing bytes after connection path')
        m.update(priority_time_tick=pt, timeout_ticks=tt, connection_serial=cs, O_vendor=ov, O_serial=os_,
                 connection_path=segs)
    return m


# ------------------------------------------------------------------------------------------------
# Unconnected Send wrapper / CPF items


def enc_wrapper(w):
    k = w['k']
    if k == 'bare':
        return enc_message(w['message'])
    if k == 'usend':
        return rc.unconnected_send(enc_message(w['message']), route_path=w.get('route_path') or [],
                                   send_path=w['send_path'], priority=w['priority'], timeout_ticks=w['timeout_ticks'])
    if k == 'usend_error':
        return struct.pack('BB', 0xD2, 0) + rc.enc_status(w['status'], w.get('ext', ()))
    raise AssertionError(k)


def ip_int(dotted):
    a, b, c, d = (int(x) for x in dotted.split('.'))
    assert all(0 <= x <= 255 for x in (a, b, c, d))
    return (a << 24) | (b << 16) | (c << 8) | d


def ip_str(n):
    return '%d.%d.%d.%d' % ((n >> 24) & 255, (n >> 16) & 255, (n >> 8) & 255, n & 255)


def enc_sockaddr(family, port, addr):
    """struct sockaddr_in, big-endian: sin_family INT, sin_port UINT, sin_addr UDINT, sin_zero[8]"""
    return struct.pack('>hHI', family, port, ip_int(addr) if isinstance(addr, str) else addr) + b'\x00' * 8


TYPE_ID = {'null': 0x0000, 'legacy': 0x0001, 'identity': 0x000C, 'conn_addr': 0x00A1, 'conn_data': 0x00B1,
           'unconn_data': 0x00B2, 'comm_service': 0x0100}
TYPE_ID_REV = {v: k for k, v in TYPE_ID.items()}


def enc_item(it):
    """-> (type id, data bytes)"""
    t = it['t']
    if t == 'unknown':
        return it['type_id'], bytes.fromhex(it['data'])
    tid = TYPE_ID[t]
    if t == 'null':
        return tid, b''
    if t == 'conn_addr':
        return tid, struct.pack('<I', it['connection'])
    if t == 'conn_data':
        return tid, struct.pack('<H', it['sequence']) + enc_message(it['payload'])
    if t == 'unconn_data':
        return tid, enc_wrapper(it['payload'])
    if t == 'comm_service':
        # version UINT, capability flags UINT, name of service + NUL  (cpppo's table: .length-8 bytes of name+NUL;
        # the ODVA table pads the name to 16 bytes -- the repository table governs here)
        name = it['name'].encode('iso-8859-1')
        assert b'\x00' not in name
        return tid, struct.pack('<HH', it['version'], it['capability']) + name + b'\x00'
    if t == 'identity':
        name = it['product_name'].encode('iso-8859-1')
        assert len(name) < 256
        return tid, (struct.pack('<H', it['version']) + enc_sockaddr(it['sin_family'], it['sin_port'], it['sin_addr'])
                     + struct.pack('<HHHHHI', it['vendor_id'], it['device_type'], it['product_code'],
                                   it['product_revision'], it['status_word'], it['serial_number'])
                     + struct.pack('B', len(name)) + name + struct.pack('B', it['state']))
    if t == 'legacy':
        ip = it['ip_address'].encode('iso-8859-1')
        assert len(ip) <= 16 and b'\x00' not in ip
        return tid, (struct.pack('<HH', it['version'], it['unknown_1'])
                     + enc_sockaddr(it['sin_family'], it['sin_port'], it['sin_addr']) + ip.ljust(16, b'\x00'))
    raise AssertionError(t)


def enc_cpf(items):
    return rc.enc_cpf([enc_item(it) for it in items])


def dec_item(tid, data, payload=True):
    data = bytes(data)
    t = TYPE_ID_REV.get(tid)
    if t is None:
        return {'t': 'unknown', 'type_id': tid, 'data': data.hex()}
    if t == 'null':
        _need(not data, 'null address item with data')
        return {'t': 'null'}
    if t == 'conn_addr':
        _need(len(data) == 4, 'connected address item is %d bytes' % len(data))
        return {'t': t, 'connection': struct.unpack('<I', data)[0]}
    if t == 'conn_data':
        _need(len(data) >= 2, 'connected data item without sequence')
        return {'t': t, 'sequence': struct.unpack_from('<H', data, 0)[0], 'payload': {'raw': data[2:].hex()}}
    if t == 'unconn_data':
        return {'t': t, 'payload': {'k': 'bare', 'message': {'raw': data.hex()}}}
    if t == 'comm_service':
        _need(len(data) >= 5 and data[-1] == 0 and b'\x00' not in data[4:-1], 'communications item malformed')
        v, c = struct.unpack_from('<HH', data, 0)
        return {'t': t, 'version': v, 'capability': c, 'name': data[4:-1].decode('iso-8859-1')}
    if t == 'identity':
        _need(len(data) >= 34, 'identity item truncated')
        ver = struct.unpack_from('<H', data, 0)[0]
        fam, port, addr = struct.unpack_from('>hHI', data, 2)
        _need(data[10:18] == b'\x00' * 8, 'sin_zero not zero')
        vid, dt, pc, rev, sw, sn = struct.unpack_from('<HHHHHI', data, 18)
        n = data[32]
        _need(len(data) == 34 + n, 'identity item length mismatch')
        return {'t': t, 'version': ver, 'sin_family': fam, 'sin_port': port, 'sin_addr': ip_str(addr), 'vendor_id': vid,
                'device_type': dt, 'product_code': pc, 'product_revision': rev, 'status_word': sw, 'serial_number': sn,
                'product_name': data[33:33 + n].decode('iso-8859-1'), 'state': data[33 + n]}
    if t == 'legacy':
        _need(len(data) == 36, 'legacy item is %d bytes' % len(data))
        ver, unk = struct.unpack_from('<HH', data, 0)
        fam, port, addr = struct.unpack_from('>hHI', data, 4)
        _need(data[12:20] == b'\x00' * 8, 'sin_zero not zero')
        ip = data[20:36].rstrip(b'\x00')
        _need(b'\x00' not in ip, 'NUL inside legacy ip_address')
        return {'t': t, 'version': ver, 'unknown_1': unk, 'sin_family': fam, 'sin_port': port, 'sin_addr': ip_str(addr),
                'ip_address': ip.decode('iso-8859-1')}
    raise AssertionError(t)


def dec_cpf(raw):
    items, _ = rc.dec_cpf(raw, 0)
    return [dec_item(tid, data) for tid, data in items]


# ------------------------------------------------------------------------------------------------
# encapsulation commands

CMD = dict(rc.CMD)
CMD_REV = {v: k for k, v in CMD.items()}


def enc_command(c):
    """-> (command code, payload)"""
    name = c['cmd']
    code = CMD[name]
    if name == 'register':
        return code, struct.pack('<HH', c['protocol_version'], c['options'])
    if name == 'unregister':
        return code, b''
    if name in ('list_services', 'list_identity', 'list_interfaces', 'legacy'):
        # request: no payload at all; reply: a CPF (item count + items)
        return code, (b'' if c.get('items') is None else enc_cpf(c['items']))
    if name in ('send_rr_data', 'send_unit_data'):
        return code, struct.pack('<IH', c['interface'], c['timeout']) + enc_cpf(c['items'])
    raise AssertionError(name)


def enc_frame(f):
    code, payload = enc_command(f['command'])
    return rc.encap(code, f['session'], payload, bytes.fromhex(f['context']), f['status'], f['options'])


def dec_frame(frame):
    e = rc.dec_encap(frame)
    _need(e['command'] in CMD_REV, 'unknown encapsulation command 0x%04x' % e['command'])
    name = CMD_REV[e['command']]
    p = e['payload']
    c = {'cmd': name}
    if name == 'register':
        _need(len(p) == 4, 'register payload is %d bytes' % len(p))
        c['protocol_version'], c['options'] = struct.unpack('<HH', p)
    elif name == 'unregister':
        _need(not p, 'unregister with payload')
    elif name in ('list_services', 'list_identity', 'list_interfaces', 'legacy'):
        c['items'] = dec_cpf(p) if p else None
    else:
        sd = rc.dec_send_data(p)
        c.update(interface=sd['interface'], timeout=sd['timeout'], items=[dec_item(t, d) for t, d in sd['items']])
    return {'session': e['session'], 'status': e['status'], 'context': e['context'].hex(), 'options': e['options'],
            'command': c}
