"""
Common machinery: case statistics, failure collection by root-cause signature, Hypothesis driver with
per-signature shrinking, known-findings, replay I/O and process-level sharding.

Conventions
-----------
* A *case* is a JSON-able value (bytes are carried as hex strings by the checks themselves).
* A *predicate* is ``pred(case, stats)``: it executes the case against cpppo, calls ``stats.case(...)``
  once to classify it, and calls ``stats.fail(clause, sig, case, observed, expected)`` for every
  disagreement with the oracle.  It never raises for a property violation.  An exception escaping a
  predicate whose innermost frame is cpppo code is turned into a failure (signature = exception type
  + function); any other escaping exception is a harness error (exit 2).
* A *signature* names a root cause, not an input, so known findings do not mask different failures.
"""
from __future__ import annotations

import collections
import hashlib
import json
import multiprocessing
import os
import sys
import time
import traceback

HOME = os.environ.get('VP_HOME') or os.path.dirname(os.path.dirname(os.path.abspath(__file__)))
REPO = os.path.realpath(os.environ.get('VP_REPO', '/repo'))
NPROC = int(os.environ.get('VP_NPROC', '16'))


class HarnessError(Exception):
    pass


def canon(case):
    return json.dumps(case, sort_keys=True, default=_default, separators=(',', ':'))


def _default(o):
    if isinstance(o, (bytes, bytearray)):
        return {'hex': bytes(o).hex()}
    if isinstance(o, (set, frozenset)):
        return sorted(o)
    if isinstance(o, tuple):
        return list(o)
    return repr(o)


def jsonable(case):
    return json.loads(canon(case))


def chash(case):
    return int.from_bytes(hashlib.blake2b(canon(case).encode(), digest_size=8).digest(), 'big')


class Fail(object):
    __slots__ = ('clause', 'sig', 'case', 'observed', 'expected', 'size', 'origin')

    def __init__(self, clause, sig, case, observed, expected):
        self.origin = None      # (seed, n) of the Hypothesis run that produced it, for shrinking later
        self.clause = clause
        self.sig = sig
        self.case = jsonable(case)
        self.observed = jsonable(observed)
        self.expected = jsonable(expected)
        self.size = len(canon(self.case))

    def as_dict(self, pid):
        return {'property': pid, 'clause': self.clause, 'signature': self.sig, 'case': self.case,
                'observed': self.observed, 'expected': self.expected}


class Stats(object):
    """Per-run (or per-shard) accounting; picklable; merge()-able."""
    MAX_HASHES = 3000000
    MAX_SAMPLES_PER_CLASS = 1
    MAX_SAMPLES = 24

    def __init__(self):
        self.evaluations = 0
        self.nontrivial = set()
        self.nontrivial_overflow = 0
        self.classes = collections.Counter()
        self.samples = {}           # class -> case
        self.fails = {}             # sig -> Fail (smallest seen)
        self.fail_counts = collections.Counter()
        self.excluded = collections.Counter()
        self.exhaustive = {}        # name -> description of a fully enumerated sub-space
        self.notes = []
        self.extra = {}

    # -- classification
    def case(self, case, nontrivial=False, classes=(), sample=True):
        self.evaluations += 1
        if nontrivial:
            if len(self.nontrivial) < self.MAX_HASHES:
                self.nontrivial.add(chash(case))
            else:
                self.nontrivial_overflow += 1
        for c in classes:
            self.classes[c] += 1
            if sample and c not in self.samples and len(self.samples) < self.MAX_SAMPLES:
                self.samples[c] = jsonable(case)
        if sample and not classes and '_' not in self.samples:
            self.samples['_'] = jsonable(case)

    def count(self, cls, n=1):
        self.classes[cls] += n

    def exclude(self, what, n=1):
        self.excluded[what] += n

    def fail(self, clause, sig, case, observed=None, expected=None):
        f = Fail(clause, sig, case, observed, expected)
        self.fail_counts[sig] += 1
        old = self.fails.get(sig)
        if old is None or f.size < old.size:
            self.fails[sig] = f
        return f

    def merge(self, other):
        self.evaluations += other.evaluations
        room = self.MAX_HASHES - len(self.nontrivial)
        if room >= len(other.nontrivial):
            self.nontrivial |= other.nontrivial
        else:
            before = len(self.nontrivial)
            for h in other.nontrivial:
                if len(self.nontrivial) >= self.MAX_HASHES:
                    break
                self.nontrivial.add(h)
            self.nontrivial_overflow += len(other.nontrivial) - (len(self.nontrivial) - before)
        self.nontrivial_overflow += other.nontrivial_overflow
        self.classes.update(other.classes)
        for c, s in other.samples.items():
            if c not in self.samples and len(self.samples) < self.MAX_SAMPLES:
                self.samples[c] = s
        for sig, f in other.fails.items():
            old = self.fails.get(sig)
            if old is None or f.size < old.size:
                self.fails[sig] = f
        self.fail_counts.update(other.fail_counts)
        self.excluded.update(other.excluded)
        self.exhaustive.update(other.exhaustive)
        self.notes.extend(n for n in other.notes if n not in self.notes)
        for k, v in other.extra.items():
            if isinstance(v, (int, float)) and isinstance(self.extra.get(k), (int, float)):
                self.extra[k] += v
            else:
                self.extra.setdefault(k, v)
        return self


# ------------------------------------------------------------------------------------------------
# running a predicate


def _innermost_repo_frame(tb):
    """(file, func) of the innermost frame that belongs to the code under test, or None."""
    found = None
    for fs in traceback.extract_tb(tb):
        fn = os.path.realpath(fs.filename)
        if fn.startswith(REPO + os.sep) or (os.sep + '.pkg' + os.sep + 'cpppo' + os.sep) in fs.filename:
            found = (os.path.relpath(fn, REPO) if fn.startswith(REPO) else fs.filename, fs.name)
    last = traceback.extract_tb(tb)[-1]
    last_fn = os.path.realpath(last.filename)
    innermost_is_repo = last_fn.startswith(REPO + os.sep)
    return found, innermost_is_repo


def run_pred(pred, case, stats, clause='?'):
    """Run pred; an exception raised *by cpppo code* (innermost frame in the repository) is a failure of
    the case (crash clause); anything else propagates as a harness error."""
    try:
        pred(case, stats)
    except (KeyboardInterrupt, SystemExit, HarnessError):
        raise
    except BaseException as exc:
        if type(exc).__module__.startswith('hypothesis'):
            raise
        frame, inner = _innermost_repo_frame(exc.__traceback__)
        if frame is not None and inner:
            stats.fail(clause, 'exc:%s@%s:%s' % (type(exc).__name__, frame[0], frame[1]), case,
                       observed=''.join(traceback.format_exception_only(type(exc), exc)).strip()[:400],
                       expected='no exception escapes the code under test here')
        else:
            raise


def known_findings():
    path = os.path.join(HOME, 'known_findings.json')
    try:
        with open(path) as f:
            doc = json.load(f)
    except IOError:
        return []
    return doc.get('findings', [])


def known_sigs(pid):
    return {k['signature']: k for k in known_findings()
            if k.get('property') == pid and k.get('status') == 'known'}


def hyp_settings(n, shrink=False, **kw):
    from hypothesis import settings, HealthCheck, Phase
    phases = [Phase.explicit, Phase.generate] + ([Phase.shrink] if shrink else [])
    return settings(max_examples=n, database=None, deadline=None, derandomize=False,
                    report_multiple_bugs=False, phases=phases,
                    suppress_health_check=list(HealthCheck), **kw)


def hyp_run(stats, strategy, pred, n, seed, clause, pid=None, shrink_s=None, shrink=None, skey=None):
    """Generate n cases from strategy, run pred on each (collecting, never stopping at the first
    failure).  Shrinking of each *new* failure signature: shrink=True here and now; shrink=None (default)
    here only when not inside a forked shard worker -- for shards the runner shrinks centrally, once per
    signature, if the check module defines STRATEGIES = {clause: lambda skey: strategy} (skey is recorded
    with the failure so the same strategy can be rebuilt)."""
    import hypothesis
    from hypothesis import given

    @hypothesis.seed(seed)
    @hyp_settings(n)
    @given(strategy)
    def explore(case):
        run_pred(pred, case, stats, clause)

    before = dict(stats.fails)
    explore()
    for sig, f in stats.fails.items():
        if before.get(sig) is not f and f.origin is None:
            f.origin = (seed, n, skey)
    if shrink is None:
        shrink = not multiprocessing.current_process().daemon
    if shrink:
        shrink_all(stats, lambda skey_: strategy, {clause: pred}, pid, shrink_s,
                   only=[s for s in stats.fails if s not in before])
    return stats


def shrink_all(stats, strategy_for, preds, pid=None, shrink_s=None, only=None):
    """Shrink each new (not known) failure signature by re-running the Hypothesis run that found it.
    strategy_for: {clause: fn(skey)->strategy} or fn(skey)->strategy; preds: {clause: pred}."""
    known = known_sigs(pid) if pid else {}
    if shrink_s is None:
        shrink_s = float(os.environ.get('VP_SHRINK_S', '40'))

    def strat(f):
        fn = strategy_for.get(f.clause) if isinstance(strategy_for, dict) else strategy_for
        return fn(f.origin[2]) if fn is not None else None

    todo = [s for s in (only if only is not None else list(stats.fails))
            if s not in known and stats.fails[s].origin is not None and stats.fails[s].clause in preds
            and strat(stats.fails[s]) is not None]

    def one(sig):
        f = stats.fails[sig]
        seed, n = f.origin[0], f.origin[1]
        out = Stats()
        best = shrink_sig(strat(f), preds[f.clause], sig, n, seed, f.clause, shrink_s)
        if best is not None:
            out.fails[sig] = best
        return out

    if not todo:
        return stats
    if len(todo) > 1 and not multiprocessing.current_process().daemon:
        res = parallel(one, todo[:16])
    else:
        res = Stats()
        for sig in todo[:16]:
            res.merge(one(sig))
    for sig, best in res.fails.items():
        if best.size <= stats.fails[sig].size:
            best.origin = stats.fails[sig].origin
            stats.fails[sig] = best
    return stats


def shrink_sig(strategy, pred, sig, n, seed, clause, budget_s):
    import hypothesis
    from hypothesis import given
    state = {'best': None, 't0': time.time()}

    class _Hit(Exception):
        pass

    @hypothesis.seed(seed)
    @hyp_settings(n, shrink=True)
    @given(strategy)
    def hunt(case):
        scratch = Stats()
        run_pred(pred, case, scratch, clause)
        f = scratch.fails.get(sig)
        if f is not None:
            b = state['best']
            if b is None or f.size <= b.size:
                state['best'] = f
            if time.time() - state['t0'] < budget_s or f is state['best']:
                raise _Hit()

    try:
        hunt()
    except (KeyboardInterrupt, SystemExit):
        raise
    except BaseException:
        pass
    return state['best']


# ------------------------------------------------------------------------------------------------
# sharding


def _shard_entry(args):
    fn, job = args
    try:
        st = fn(job)
        if not isinstance(st, Stats):
            raise HarnessError('shard function must return Stats, got %r' % (type(st),))
        return ('ok', st)
    except BaseException:
        return ('err', traceback.format_exc())


def parallel(fn, jobs, procs=None, stats=None, fork=False):
    """Run fn(job) -> Stats for every job in forked workers and merge.  fn must be a module-level
    function (or otherwise fork-inheritable; we use fork so closures work too)."""
    jobs = list(jobs)
    out = stats if stats is not None else Stats()
    procs = min(procs or NPROC, max(1, len(jobs)))
    if (procs <= 1 and not fork) or os.environ.get('VP_SERIAL') or multiprocessing.current_process().daemon:
        for j in jobs:
            kind, val = _shard_entry((fn, j))
            if kind == 'err':
                raise HarnessError('shard %r failed:\n%s' % (j, val))
            out.merge(val)
        return out
    ctx = multiprocessing.get_context('fork')
    global _FORK_FN
    _FORK_FN = fn
    with ctx.Pool(procs, maxtasksperchild=1) as pool:      # a fresh process per job: no state leaks between jobs
        for kind, val in pool.imap_unordered(_fork_call, jobs, chunksize=1):
            if kind == 'err':
                pool.terminate()
                raise HarnessError('shard failed:\n%s' % (val,))
            out.merge(val)
    return out


_FORK_FN = None


def _fork_call(job):
    return _shard_entry((_FORK_FN, job))


def shard_seed(seed, shard):
    return (int(seed) * 1000 + int(shard)) & 0x7FFFFFFFFFFFFFFF


# ------------------------------------------------------------------------------------------------
# replay files


def replay_dir(pid):
    return os.path.join(HOME, 'replay', pid)


def write_replay(pid, fail, subdir=None):
    d = subdir or os.path.join(HOME, 'replay', '_new', pid)
    os.makedirs(d, exist_ok=True)
    body = fail.as_dict(pid)
    h = hashlib.sha1(canon(body['case']).encode()).hexdigest()[:10]
    safe = ''.join(ch if ch.isalnum() or ch in '-_.' else '_' for ch in fail.sig)[:80]
    path = os.path.join(d, '%s-%s.json' % (safe, h))
    with open(path, 'w') as f:
        json.dump(body, f, indent=1, sort_keys=True)
        f.write('\n')
    return path


def load_replays(pid):
    d = replay_dir(pid)
    out = []
    if os.path.isdir(d):
        for name in sorted(os.listdir(d)):
            if name.endswith('.json'):
                with open(os.path.join(d, name)) as f:
                    out.append((os.path.join(d, name), json.load(f)))
    return out


def hx(b):
    return bytes(b).hex()


def unhx(s):
    return bytes.fromhex(s)
