"""
relay -- a byte-counting, fault-injecting TCP relay (harness-owned), used by C13.

One Relay listens on 127.0.0.1:<ephemeral> and forwards every accepted connection to the upstream
address.  Each accepted connection takes the next fault spec from the plan (None = transparent):

  {'dir': 's2c'|'c2s', 'kind': 'cut', 'at': k}        close both sides after exactly k bytes of that direction
  {'dir': 's2c', 'kind': 'blackhole', 'at': k}         forward k bytes of the reply stream, swallow the rest
  {'dir': 's2c', 'kind': 'drop', 'at': a, 'until': b}  swallow exactly bytes [a, b) of the reply stream (a reply lost entirely), forward the rest
  {'dir': 's2c', 'kind': 'stall', 'at': k, 'hold': s}  forward k bytes of the reply stream, hold back what follows for s seconds
                                                       (silence, not EOF), then deliver it all and become transparent
A connection's spec may also be set after it was accepted (Conn.spec), e.g. once the session is registered.

Per connection the relay records the bytes forwarded in both directions (the s2c record is what the client
could have seen at most).
"""
from __future__ import annotations

import select
import socket
import threading
import time


class Conn(object):
    def __init__(self, spec):
        self.spec = spec
        self.c2s = bytearray()      # bytes forwarded client -> server
        self.s2c = bytearray()      # bytes forwarded server -> client
        self.swallowed = 0
        self.seen = {}
        self.done = threading.Event()
        self.cut = False
        self.held = bytearray()     # 'stall': reply bytes held back
        self.held_until = 0.0
        self.released = threading.Event()
        self.part_sent_at = None


class Relay(object):
    def __init__(self, upstream):
        self.upstream = tuple(upstream)
        self.lsock = socket.socket(socket.AF_INET, socket.SOCK_STREAM)
        self.lsock.setsockopt(socket.SOL_SOCKET, socket.SO_REUSEADDR, 1)
        self.lsock.bind(('127.0.0.1', 0))
        self.lsock.listen(16)
        self.address = self.lsock.getsockname()
        self.plan = []
        self.conns = []
        self.lock = threading.Lock()
        self.stop = False
        self.thread = threading.Thread(target=self._accept, name='vp-relay', daemon=True)
        self.thread.start()

    def set_plan(self, plan):
        with self.lock:
            self.plan = list(plan)
            self.conns = []

    def _accept(self):
        while not self.stop:
            try:
                r, _, _ = select.select([self.lsock], [], [], 0.2)
                if not r:
                    continue
                csock, _ = self.lsock.accept()
            except OSError:
                return
            with self.lock:
                spec = self.plan.pop(0) if self.plan else None
                conn = Conn(spec)
                self.conns.append(conn)
            threading.Thread(target=self._serve, args=(csock, conn), name='vp-relay-conn', daemon=True).start()

    def _serve(self, csock, conn):
        ssock = None
        try:
            ssock = socket.create_connection(self.upstream, timeout=5.0)
            for s in (csock, ssock):
                s.setsockopt(socket.IPPROTO_TCP, socket.TCP_NODELAY, 1)
                s.setblocking(True)
            while True:
                spec = conn.spec
                stalling = conn.held and time.time() >= conn.held_until
                if stalling:
                    csock.sendall(bytes(conn.held))
                    conn.s2c.extend(conn.held)
                    conn.held = bytearray()
                    conn.spec = spec = None
                    conn.released.set()
                r, _, _ = select.select([csock, ssock], [], [], 0.02 if conn.held else 0.5)
                if self.stop:
                    break
                for s in r:
                    try:
                        data = s.recv(65536)
                    except OSError:
                        data = b''
                    if not data:
                        return
                    direction = 'c2s' if s is csock else 's2c'
                    out = ssock if s is csock else csock
                    rec = conn.c2s if s is csock else conn.s2c
                    if spec and spec['dir'] == direction:
                        room = spec['at'] - len(rec)
                        if spec['kind'] == 'cut':
                            if room > 0:
                                part = data[:room]
                                out.sendall(part)
                                rec.extend(part)
                            if len(rec) >= spec['at']:
                                conn.cut = True
                                return
                            continue
                        if spec['kind'] == 'drop':
                            # swallow stream bytes [at, until), forward everything else
                            seen = conn.seen.get(direction, 0)
                            keep = bytearray()
                            for i, byte in enumerate(data):
                                if not (spec['at'] <= seen + i < spec['until']):
                                    keep.append(byte)
                            conn.seen[direction] = seen + len(data)
                            conn.swallowed += len(data) - len(keep)
                            if keep:
                                out.sendall(bytes(keep))
                                rec.extend(keep)
                            continue
                        if spec['kind'] == 'stall':
                            part = data[:max(0, room)] if not conn.held else b''
                            if part:
                                out.sendall(part)
                                rec.extend(part)
                                conn.part_sent_at = time.time()
                            rest = data[len(part):]
                            if rest:
                                if not conn.held:
                                    conn.held_until = time.time() + spec['hold']
                                conn.held.extend(rest)
                            continue
                        if spec['kind'] == 'blackhole':
                            part = data[:max(0, room)]
                            if part:
                                out.sendall(part)
                                rec.extend(part)
                            conn.swallowed += len(data) - len(part)
                            continue
                    out.sendall(data)
                    rec.extend(data)
        except OSError:
            pass
        finally:
            for s in (csock, ssock):
                if s is not None:
                    try:
                        s.shutdown(socket.SHUT_RDWR)
                    except OSError:
                        pass
                    try:
                        s.close()
                    except OSError:
                        pass
            conn.done.set()

    def close(self):
        self.stop = True
        try:
            self.lsock.close()
        except OSError:
            pass

    def wait_idle(self, timeout=5.0):
        t0 = time.time()
        for c in list(self.conns):
            c.done.wait(max(0.0, timeout - (time.time() - t0)))
