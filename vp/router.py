"""
router -- a two-simulator rig for the `[UCMM] Route` forwarding branch (used by C06's `routed` clause).

    client (reference codec)  -->  A: enip.main.main() in this process, UCMM.route = {"1/1": relay}
                                        |  forwards Unconnected Sends whose route path starts with 1/1
                                        v
                                   relay (vp/relay.py; can stall one reply)  -->  B: `python -m cpppo.server.enip` (subprocess)

B is a second, independent simulator process built from the same working tree (PYTHONPATH = the import root of this run);
its tags hold values A does not have, so a reply can be attributed to the device that produced it.
"""
from __future__ import annotations

import os
import socket
import subprocess
import sys
import time

from . import refcodec as rc, sim
from .relay import Relay

B_SPECS = [
    {'name': 'RB', 'type': 'DINT', 'length': 8, 'address': None},
    {'name': 'RW', 'type': 'INT', 'length': 4, 'address': None},
]
A_SPECS = [
    {'name': 'LA', 'type': 'DINT', 'length': 4, 'address': None},
]
ROUTE_HOP = {'port': 1, 'link': 1}


def _free_port():
    s = socket.socket()
    s.bind(('127.0.0.1', 0))
    p = s.getsockname()[1]
    s.close()
    return p


class Rig(object):
    def __init__(self):
        pkg = os.path.dirname(os.path.dirname(os.path.abspath(sys.modules['cpppo'].__file__)))
        self.b_port = _free_port()
        env = dict(os.environ, PYTHONPATH=pkg + os.pathsep + os.environ.get('PYTHONPATH', ''))
        argv = [sys.executable, '-m', 'cpppo.server.enip', '--address', '127.0.0.1:%d' % self.b_port, '--no-udp', '--no-config'] + [
            sim.tag_arg(s) for s in B_SPECS]
        def die_with_parent():          # Linux: the target simulator is killed when the process that started it goes away
            try:
                import ctypes
                import signal
                ctypes.CDLL('libc.so.6', use_errno=True).prctl(1, signal.SIGKILL)      # PR_SET_PDEATHSIG
            except Exception:
                pass

        self.b = subprocess.Popen(argv, env=env, stdout=subprocess.DEVNULL, stderr=subprocess.DEVNULL, cwd='/', preexec_fn=die_with_parent)
        t0 = time.time()
        while True:
            try:
                socket.create_connection(('127.0.0.1', self.b_port), timeout=1).close()
                break
            except OSError:
                if self.b.poll() is not None or time.time() - t0 > 30:
                    self.close()
                    raise RuntimeError('routed target simulator did not start (rc=%r)' % (self.b.poll(),))
                time.sleep(0.05)
        self.relay = Relay(('127.0.0.1', self.b_port))
        from cpppo.server.enip import ucmm
        route = {'%d/%d' % (ROUTE_HOP['port'], ROUTE_HOP['link']): '127.0.0.1:%d' % self.relay.address[1]}
        UCMM = type('UCMM', (ucmm.UCMM,), {'route': route})
        self.a = sim.TcpServer(A_SPECS, UCMM_class=UCMM)
        # give B's tags recognisable values, directly
        s = sim.TcpSession(_Addr(('127.0.0.1', self.b_port)))
        for sp in B_SPECS:
            vals = [7000 + 10 * i for i in range(sp['length'])] if sp['type'] == 'DINT' else [70 + i for i in range(sp['length'])]
            out = s.send(rc.req_write_tag([{'symbolic': sp['name']}], sp['type'], vals))
            assert out['reply'] is not None and out['reply']['status'] == 0, out
        s.close()
        self.b_values = {'RB': [7000 + 10 * i for i in range(8)], 'RW': [70 + i for i in range(4)]}

    def close(self):
        try:
            self.b.terminate()
            self.b.wait(5)
        except Exception:
            try:
                self.b.kill()
            except Exception:
                pass
        try:
            self.relay.close()
        except Exception:
            pass


class _Addr(object):
    """What sim.TcpSession needs of a server object: connect()."""

    def __init__(self, address):
        self.address = address

    def connect(self, timeout=5.0):
        s = socket.create_connection(self.address, timeout=timeout)
        s.setsockopt(socket.IPPROTO_TCP, socket.TCP_NODELAY, 1)
        return s
