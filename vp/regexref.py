"""
regexref — an independent reference for regular expressions (used by C11).

* an own, JSON-able regex AST over arbitrary hashable symbols (1-character str, or int for bytes),
* a renderer to the textual syntax shared by greenery 2.1 and Python's ``re``
  (literals, [..] / [^..] classes, '.', alternation, grouping, '*', '+', '?', {m} {m,} {m,n}),
* a Brzozowski-derivative matcher (``Matcher``) with ACI-normalising smart constructors, so that a
  derivative is the empty language  <=>  it is the single EMPTY node,
* lowering of a character-level AST to a byte-level AST (UTF-8),
* bounded enumeration of all ASTs of a given size.

Nothing here imports greenery or cpppo, and the matcher does not use ``re``.  ``selftest()`` (called
once at harness start) compares the matcher with ``re.fullmatch`` on the shared syntax subset.

AST nodes (lists, so that a case survives a JSON round trip unchanged):
    ['lit', s]            one symbol
    ['cls', [s, ...], neg]  symbol class (sorted members), negated if neg
    ['dot']               any one symbol
    ['cat', r, s]  ['alt', r, s]  ['star', r]  ['plus', r]  ['opt', r]
    ['rep', r, m, n]      m..n repetitions, n None = unbounded
"""
from __future__ import annotations

import itertools

ATOMIC = ('lit', 'cls', 'dot')
SPECIAL = set('\\[](){}|*+?.^$-')


# ------------------------------------------------------------------------------------------------
# AST helpers


def size(ast):
    t = ast[0]
    if t in ATOMIC:
        return 1
    if t in ('cat', 'alt'):
        return 1 + size(ast[1]) + size(ast[2])
    return 1 + size(ast[1])


def weight(ast):
    """Number of atoms after unrolling bounded repetitions (a bound on the automaton's size)."""
    t = ast[0]
    if t in ATOMIC:
        return 1
    if t in ('cat', 'alt'):
        return weight(ast[1]) + weight(ast[2])
    if t == 'rep':
        m, n = ast[2], ast[3]
        return weight(ast[1]) * max(1, (m + 1) if n is None else n)
    return weight(ast[1])


def walk(ast):
    yield ast
    t = ast[0]
    if t in ('cat', 'alt'):
        for sub in (ast[1], ast[2]):
            for x in walk(sub):
                yield x
    elif t not in ATOMIC:
        for x in walk(ast[1]):
            yield x


def symbols(ast):
    """Every symbol mentioned literally (in a literal or as a member of a class, negated or not)."""
    out = set()
    for n in walk(ast):
        if n[0] == 'lit':
            out.add(n[1])
        elif n[0] == 'cls':
            out.update(n[1])
    return out


def has_wildcard(ast):
    return any(n[0] == 'dot' or (n[0] == 'cls' and n[2]) for n in walk(ast))


def features(ast):
    f = set()
    for n in walk(ast):
        t = n[0]
        if t == 'dot':
            f.add('dot')
        elif t == 'cls':
            f.add('negclass' if n[2] else 'class')
        elif t in ('alt', 'star', 'plus', 'opt', 'rep'):
            f.add(t)
    return f


# ------------------------------------------------------------------------------------------------
# rendering (character-level AST -> pattern text understood by greenery and by re)


def _sym(ch):
    assert isinstance(ch, str) and len(ch) == 1
    return ('\\' + ch) if ch in SPECIAL else ch


def _operand(ast):
    """Render as the operand of a postfix operator."""
    s = render(ast)
    return s if ast[0] in ATOMIC else '(' + s + ')'


def render(ast):
    t = ast[0]
    if t == 'lit':
        return _sym(ast[1])
    if t == 'dot':
        return '.'
    if t == 'cls':
        assert ast[1], 'empty class is not in the supported syntax'
        return '[' + ('^' if ast[2] else '') + ''.join(_sym(c) for c in ast[1]) + ']'
    if t == 'cat':
        return ''.join(('(' + render(x) + ')') if x[0] == 'alt' else render(x) for x in (ast[1], ast[2]))
    if t == 'alt':
        return render(ast[1]) + '|' + render(ast[2])
    if t == 'star':
        return _operand(ast[1]) + '*'
    if t == 'plus':
        return _operand(ast[1]) + '+'
    if t == 'opt':
        return _operand(ast[1]) + '?'
    if t == 'rep':
        m, n = ast[2], ast[3]
        assert m >= 0 and (n is None or (n >= m and n >= 1))
        if n is None:
            q = '{%d,}' % m
        elif n == m:
            q = '{%d}' % m
        else:
            q = '{%d,%d}' % (m, n)
        return _operand(ast[1]) + q
    raise ValueError('unknown node %r' % (ast,))


def render_re_bytes(bast):
    """Byte-level AST (int symbols) -> bytes pattern for Python re; used only by selftest()."""
    t = bast[0]
    esc = lambda b: ('\\x%02x' % b).encode()
    grp = lambda x: b'(?:' + render_re_bytes(x) + b')'
    if t == 'lit':
        return esc(bast[1])
    if t == 'dot':
        return b'(?s:.)'
    if t == 'cls':
        return b'[' + (b'^' if bast[2] else b'') + b''.join(esc(b) for b in bast[1]) + b']'
    if t == 'cat':
        return grp(bast[1]) + grp(bast[2])
    if t == 'alt':
        return grp(bast[1]) + b'|' + grp(bast[2])
    if t == 'star':
        return grp(bast[1]) + b'*'
    if t == 'plus':
        return grp(bast[1]) + b'+'
    if t == 'opt':
        return grp(bast[1]) + b'?'
    if t == 'rep':
        m, n = bast[2], bast[3]
        return grp(bast[1]) + (b'{%d,}' % m if n is None else b'{%d,%d}' % (m, n))
    raise ValueError(bast)


# ------------------------------------------------------------------------------------------------
# lowering to bytes


def _seq(bs):
    bs = list(bs)
    node = ['lit', bs[-1]]
    for b in reversed(bs[:-1]):
        node = ['cat', ['lit', b], node]
    return node


def _alts(nodes):
    nodes = list(nodes)
    node = nodes[-1]
    for x in reversed(nodes[:-1]):
        node = ['alt', x, node]
    return node


def _chars_to_bytes(chars):
    """Alternation of the UTF-8 encodings of a non-empty set of characters."""
    encs = [c if isinstance(c, bytes) else c.encode('utf-8') for c in chars]     # a bytes item is a ready-made token
    single = sorted(e[0] for e in encs if len(e) == 1)
    multi = sorted(e for e in encs if len(e) > 1)
    nodes = ([['cls', single, False]] if single else []) + [_seq(e) for e in multi]
    return _alts(nodes)


def lower_bytes(ast, universe=None):
    """Character-level AST -> byte-level AST (int symbols 0..255) over UTF-8.

    A literal becomes the concatenation of its bytes.  With universe=None a wildcard ('.' or a negated
    class, whose members must then be single-byte) matches exactly one byte.  With a universe (a set of
    characters) a wildcard matches the encoding of any one character of the universe not excluded, i.e.
    character-level semantics restricted to texts over that universe."""
    t = ast[0]
    if t == 'lit':
        return _seq(ast[1].encode('utf-8'))
    if t == 'dot':
        return ['dot'] if universe is None else _chars_to_bytes(universe)
    if t == 'cls':
        if not ast[2]:
            return _chars_to_bytes(ast[1])
        if universe is None:
            encs = [c.encode('utf-8') for c in ast[1]]
            if any(len(e) != 1 for e in encs):
                raise ValueError('negated class with a multi-byte member has no byte-level reading')
            return ['cls', sorted(e[0] for e in encs), True]
        rest = set(universe) - set(ast[1])
        if not rest:
            raise ValueError('negated class excludes the whole universe')
        return _chars_to_bytes(rest)
    if t in ('cat', 'alt'):
        return [t, lower_bytes(ast[1], universe), lower_bytes(ast[2], universe)]
    if t == 'rep':
        return ['rep', lower_bytes(ast[1], universe), ast[2], ast[3]]
    return [t, lower_bytes(ast[1], universe)]


# ------------------------------------------------------------------------------------------------
# Brzozowski derivatives


class Matcher(object):
    """Lazy DFA of Brzozowski derivatives of one AST.  Nodes are hash-consed ints; smart constructors
    keep them in ACI normal form with EMPTY absorbed, hence  L(node) is empty  <=>  node == EMPTY
    (every positive symbol set is non-empty; a negated set never covers the symbol universe)."""

    def __init__(self, ast):
        self._ids = {}
        self._key = []
        self._null = []
        self._d = {}
        self.EMPTY = self._mk(('empty',), False)
        self.EPS = self._mk(('eps',), True)
        self.start = self._compile(ast)

    # -- constructors
    def _mk(self, key, nullable):
        i = self._ids.get(key)
        if i is None:
            i = len(self._key)
            self._ids[key] = i
            self._key.append(key)
            self._null.append(nullable)
        return i

    def _set(self, members, neg):
        members = frozenset(members)
        if not members and not neg:
            return self.EMPTY
        return self._mk(('set', members, bool(neg)), False)

    def _cat(self, a, b):
        if a == self.EMPTY or b == self.EMPTY:
            return self.EMPTY
        if a == self.EPS:
            return b
        if b == self.EPS:
            return a
        ka = self._key[a]
        if ka[0] == 'cat':                       # right-associate
            return self._cat(ka[1], self._cat(ka[2], b))
        return self._mk(('cat', a, b), self._null[a] and self._null[b])

    def _alt(self, items):
        flat = set()
        for i in items:
            k = self._key[i]
            if k[0] == 'alt':
                flat.update(k[1])
            elif i != self.EMPTY:
                flat.add(i)
        if not flat:
            return self.EMPTY
        if len(flat) == 1:
            return next(iter(flat))
        flat = tuple(sorted(flat))
        return self._mk(('alt', flat), any(self._null[i] for i in flat))

    def _star(self, a):
        if a in (self.EMPTY, self.EPS):
            return self.EPS
        if self._key[a][0] == 'star':
            return a
        return self._mk(('star', a), True)

    def _compile(self, ast):
        t = ast[0]
        if t == 'lit':
            return self._set([ast[1]], False)
        if t == 'dot':
            return self._set([], True)
        if t == 'cls':
            return self._set(ast[1], ast[2])
        if t == 'cat':
            return self._cat(self._compile(ast[1]), self._compile(ast[2]))
        if t == 'alt':
            return self._alt([self._compile(ast[1]), self._compile(ast[2])])
        r = self._compile(ast[1])
        if t == 'star':
            return self._star(r)
        if t == 'plus':
            return self._cat(r, self._star(r))
        if t == 'opt':
            return self._alt([r, self.EPS])
        if t == 'rep':
            m, n = ast[2], ast[3]
            if n is None:
                tail = self._star(r)
            else:
                tail = self.EPS
                for _ in range(n - m):           # (r (r (r)?)?)?
                    tail = self._alt([self.EPS, self._cat(r, tail)])
            for _ in range(m):
                tail = self._cat(r, tail)
            return tail
        raise ValueError('unknown node %r' % (ast,))

    # -- semantics
    def nullable(self, i):
        return self._null[i]

    def step(self, i, c):
        """Derivative of node i with respect to symbol c."""
        got = self._d.get((i, c))
        if got is not None:
            return got
        k = self._key[i]
        t = k[0]
        if t in ('empty', 'eps'):
            out = self.EMPTY
        elif t == 'set':
            out = self.EPS if ((c in k[1]) != k[2]) else self.EMPTY
        elif t == 'cat':
            out = self._cat(self.step(k[1], c), k[2])
            if self._null[k[1]]:
                out = self._alt([out, self.step(k[2], c)])
        elif t == 'alt':
            out = self._alt([self.step(j, c) for j in k[1]])
        else:                                    # star
            out = self._cat(self.step(k[1], c), i)
        self._d[(i, c)] = out
        return out

    def scan(self, syms):
        """-> (k, accepting, last): k = length of the longest prefix that is still a prefix of some
        sentence, accepting = that prefix is itself a sentence, last = length of the longest prefix
        <= k that is a sentence (-1 if none; 0 if only the empty prefix)."""
        i = self.start
        k = 0
        last = 0 if self._null[i] else -1
        for c in syms:
            j = self.step(i, c)
            if j == self.EMPTY:
                break
            i = j
            k += 1
            if self._null[i]:
                last = k
        return k, self._null[i], last

    def accepts(self, syms):
        k, acc, _ = self.scan(syms)
        return acc and k == len(syms)

    def viable(self, syms):
        return self.scan(syms)[0] == len(syms)


# ------------------------------------------------------------------------------------------------
# bounded enumeration


def unary_ops(reps):
    ops = [lambda r: ['star', r], lambda r: ['plus', r], lambda r: ['opt', r]]
    for m, n in reps:
        ops.append(lambda r, m=m, n=n: ['rep', r, m, n])
    return ops


def enum_asts(n, atoms, reps, _memo=None):
    """All ASTs with exactly n nodes: atoms at the leaves, unary star/plus/opt/rep(m,n) for (m,n) in
    reps, binary cat/alt."""
    memo = {} if _memo is None else _memo
    key = n
    if key in memo:
        return memo[key]
    if n == 1:
        out = [list(a) for a in atoms]
    else:
        out = []
        for r in enum_asts(n - 1, atoms, reps, memo):
            for op in unary_ops(reps):
                out.append(op(r))
        for left in range(1, n - 1):
            right = n - 1 - left
            for a in enum_asts(left, atoms, reps, memo):
                for b in enum_asts(right, atoms, reps, memo):
                    out.append(['cat', a, b])
                    out.append(['alt', a, b])
    memo[key] = out
    return out


def enum_upto(n, atoms, reps):
    memo = {}
    out = []
    for k in range(1, n + 1):
        out.extend(enum_asts(k, atoms, reps, memo))
    return out


def strings_upto(alphabet, n):
    for k in range(n + 1):
        for tup in itertools.product(alphabet, repeat=k):
            yield tup


# ------------------------------------------------------------------------------------------------
# self test against Python's re on the shared syntax subset


def selftest():
    """Compare Matcher with re.fullmatch.  Raises AssertionError on the first disagreement; returns the
    number of comparisons made.  (Uses re — this is a test *of the oracle*, not the oracle.)"""
    import re
    n = 0
    atoms = [['lit', 'a'], ['lit', 'b'], ['dot'], ['cls', ['a'], True], ['cls', ['a', 'b'], False], ['lit', 'π']]
    reps = [(2, 2), (1, 2), (2, None), (0, 2)]
    asts = enum_upto(3, atoms, reps)
    asts += [
        ['cat', ['star', ['alt', ['lit', 'a'], ['lit', 'b']]], ['rep', ['lit', 'a'], 1, 3]],
        ['alt', ['rep', ['lit', 'π'], 2, 2], ['rep', ['lit', 'π'], 3, 3]],
        ['cat', ['star', ['cls', ['π'], True]], ['lit', 'π']],
        ['plus', ['cat', ['opt', ['lit', 'a']], ['cat', ['lit', 'b'], ['star', ['dot']]]]],
        ['rep', ['alt', ['cat', ['lit', 'a'], ['lit', 'b']], ['lit', 'b']], 0, 3],
    ]
    alpha = ['a', 'b', 'π', 'c']
    words = [''.join(w) for w in strings_upto(alpha, 6)]
    by_len = {}
    for w in words:
        by_len.setdefault(len(w), []).append(w)
    for ast in asts:
        pat = re.compile(render(ast))
        m = Matcher(ast)
        lang = set(w for w in words if pat.fullmatch(w))
        # prefixes (up to length 2) of sentences of length <= 6; completion of a viable prefix of such a
        # small expression never needs more than 4 further symbols (max: (x{2}){2})
        pref = set(w[:i] for w in lang for i in range(0, min(len(w), 2) + 1))
        for w in words:
            if len(w) <= 4:
                assert m.accepts(w) == (w in lang), ('accept', render(ast), w)
                n += 1
            if len(w) <= 2:
                assert m.viable(w) == (w in pref), ('viable', render(ast), w)
                n += 1
    # byte-level lowering
    bpool = [0x61, 0x62, 0xCF, 0x80, 0x81]
    bwords = [bytes(w) for w in strings_upto(bpool, 5)]
    for ast in asts[::7] + asts[-5:]:
        for uni in (None, {'a', 'b', 'c', 'π', 'ρ'}):
            try:
                bast = lower_bytes(ast, uni)
            except ValueError:
                continue
            pat = re.compile(render_re_bytes(bast))
            m = Matcher(bast)
            for w in bwords:
                assert m.accepts(w) == bool(pat.fullmatch(w)), ('bytes', render(ast), uni, w)
                n += 1
            if uni is not None:                  # character semantics: bytes(text) accepted <=> text accepted
                cm = Matcher(ast)
                for t in words:
                    if len(t) <= 4:
                        assert m.accepts(t.encode('utf-8')) == cm.accepts(t), ('text', render(ast), t)
                        n += 1
    return n
