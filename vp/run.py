"""
CLI:  python -m vp.run <id> [quick|thorough] [--replay <file>]

Exit codes: 0 held on everything explored (known findings are listed as KNOWN-FINDING lines),
            1 at least one violation not listed in known_findings.json (VIOLATION line per signature),
            2 harness error / inconclusive.
"""
from __future__ import annotations

import importlib
import json
import logging
import os
import sys
import time
import traceback

from . import common


def main(argv):
    args = [a for a in argv if not a.startswith('--')]
    if not args:
        print('usage: check <id> [quick|thorough] [--replay <file>]', file=sys.stderr)
        return 2
    pid = args[0].upper()
    tier = os.environ.get('VERIF_TIER') or 'quick'
    if len(args) > 1 and args[1] in ('quick', 'thorough'):
        tier = args[1]
    if tier not in ('quick', 'thorough'):
        tier = 'quick'
    seed = int(os.environ.get('VERIF_SEED', '1') or '1')
    replay = None
    if '--replay' in argv:
        replay = argv[argv.index('--replay') + 1]

    logging.disable(logging.CRITICAL)
    preload()
    try:
        mod = importlib.import_module('vp.checks.' + pid.lower())
    except Exception:
        traceback.print_exc()
        print('HARNESS-ERROR property=%s cannot import check module' % pid)
        return 2

    t0 = time.time()
    known = common.known_sigs(pid)
    try:
        if replay is not None:
            return do_replay(mod, pid, replay, known)
        stats = common.Stats()
        # regression tier: every committed replay file first
        for path, doc in common.load_replays(pid):
            pred = mod.CLAUSES.get(doc.get('clause'))
            if pred is None:
                raise common.HarnessError('replay %s names unknown clause %r' % (path, doc.get('clause')))
            common.run_pred(pred, doc['case'], stats, doc.get('clause'))
            stats.count('replayed_regression_files')
        out = mod.run(tier, seed)
        if out is not None:
            stats.merge(out)
    except common.HarnessError as exc:
        print('HARNESS-ERROR property=%s %s' % (pid, exc))
        return 2
    except Exception:
        traceback.print_exc()
        print('HARNESS-ERROR property=%s unexpected exception in the harness' % pid)
        return 2
    # central shrinking of failures found inside shard workers (once per signature, in parallel)
    try:
        strategies = getattr(mod, 'STRATEGIES', None)
        if strategies and any(sig not in known for sig in stats.fails):
            common.shrink_all(stats, strategies, mod.CLAUSES, pid)
    except common.HarnessError as exc:
        print('NOTE: shrinking failed (%s); reporting unshrunk cases' % exc)
    wall = time.time() - t0

    new = [f for sig, f in sorted(stats.fails.items()) if sig not in known]
    hit_known = [(sig, known[sig]) for sig in sorted(stats.fails) if sig in known]
    minimum = getattr(mod, 'MIN_EVALUATIONS', {}).get(tier, 1)
    write_evidence(mod, pid, tier, seed, stats, wall, len(new), hit_known)
    for sig, k in hit_known:
        print('KNOWN-FINDING: property=%s %s [%s; %d case(s) this run]' % (pid, k.get('what', sig), sig, stats.fail_counts[sig]))
    # a known finding that no longer shows is reported (informational; never an alarm)
    for sig, k in sorted(known.items()):
        if sig not in stats.fails:
            print('NOTE: known finding %s of %s was not reproduced in this run' % (sig, pid))
    for f in new:
        path = common.write_replay(pid, f)
        print('VIOLATION property=%s replay=%s' % (pid, path))
        print('  clause=%s signature=%s' % (f.clause, f.sig))
        print('  observed=%s' % (common.canon(f.observed)[:600],))
        print('  expected=%s' % (common.canon(f.expected)[:600],))
    print('%s %s seed=%d evaluations=%d distinct_nontrivial=%d violations=%d known=%d wall=%.1fs' % (
        pid, tier, seed, stats.evaluations, len(stats.nontrivial), len(new), len(hit_known), wall))
    if new:
        return 1
    if stats.evaluations < minimum:
        print('INCONCLUSIVE property=%s only %d evaluations (< %d)' % (pid, stats.evaluations, minimum))
        return 2
    return 0


def preload():
    """Import the whole library before any case is generated: Hypothesis mixes constants found in already-imported
    non-library modules into its draws, so the cases of a seed must not depend on what a worker imported earlier."""
    for name in ('cpppo', 'cpppo.automata', 'cpppo.dotdict', 'cpppo.misc', 'cpppo.server.network', 'cpppo.server.tnet',
                 'cpppo.server.tnetstrings', 'cpppo.server.enip', 'cpppo.server.enip.parser', 'cpppo.server.enip.device',
                 'cpppo.server.enip.logix', 'cpppo.server.enip.ucmm', 'cpppo.server.enip.client', 'cpppo.server.enip.get_attribute',
                 'cpppo.server.enip.main', 'cpppo.server.enip.defaults', 'cpppo.history', 'cpppo.history.times', 'cpppo.history.files',
                 'cpppo.remote.plc_modbus', 'pylogix'):
        try:
            importlib.import_module(name)
        except Exception:
            pass


def do_replay(mod, pid, path, known):
    with open(path) as f:
        doc = json.load(f)
    pred = mod.CLAUSES.get(doc.get('clause'))
    if pred is None:
        print('HARNESS-ERROR property=%s replay names unknown clause %r' % (pid, doc.get('clause')))
        return 2
    stats = common.Stats()
    common.run_pred(pred, doc['case'], stats, doc.get('clause'))
    if not stats.fails:
        print('replay %s: property %s holds on this case' % (path, pid))
        return 0
    rc = 0
    for sig, f in sorted(stats.fails.items()):
        if sig in known:
            print('KNOWN-FINDING: property=%s %s [%s]' % (pid, known[sig].get('what', sig), sig))
            continue
        rc = 1
        print('VIOLATION property=%s replay=%s' % (pid, path))
        print('  clause=%s signature=%s' % (f.clause, f.sig))
        print('  observed=%s' % (common.canon(f.observed)[:600],))
        print('  expected=%s' % (common.canon(f.expected)[:600],))
    return rc


def write_evidence(mod, pid, tier, seed, stats, wall, nviol, hit_known):
    samples = []
    for cls, case in list(stats.samples.items())[:16]:
        txt = common.canon(case)
        if len(txt) > 1500:
            case = {'truncated_json': txt[:1500]}
        samples.append({'class': cls, 'case': case})
    cov = {
        'evaluations': int(stats.evaluations),
        'distinct_nontrivial': int(len(stats.nontrivial)),
        'rule': mod.RULE,
        'samples': samples,
        'classes': dict(sorted(stats.classes.items())),
        'excluded_by_construction': dict(sorted(stats.excluded.items())),
        'known_findings_hit': {sig: int(stats.fail_counts[sig]) for sig, _ in hit_known},
    }
    if stats.nontrivial_overflow:
        cov['distinct_nontrivial_note'] = 'hash set capped; %d further non-trivial cases not de-duplicated and not counted' % stats.nontrivial_overflow
    if stats.exhaustive:
        cov['exhaustive'] = True
        cov['exhaustive_subspaces'] = stats.exhaustive
    if stats.notes:
        cov['notes'] = stats.notes
    if stats.extra:
        cov['extra'] = common.jsonable(stats.extra)
    doc = {
        'property_id': pid,
        'tier': tier,
        'seed': int(seed),
        'level': mod.LEVEL,
        'coverage': cov,
        'assumptions': list(getattr(mod, 'ASSUMPTIONS', [])),
        'wall_s': round(wall, 2),
        'violations': int(nviol),
    }
    d = os.path.join(common.HOME, 'evidence')
    os.makedirs(d, exist_ok=True)
    tmp = os.path.join(d, '.%s.json.tmp' % pid)
    with open(tmp, 'w') as f:
        json.dump(doc, f, indent=1, sort_keys=True)
        f.write('\n')
    os.replace(tmp, os.path.join(d, '%s.json' % pid))


if __name__ == '__main__':
    sys.exit(main(sys.argv[1:]))
