"""
tagcheck -- generated tag configurations x request histories against the typed-array model.
Shared by C03 (mostly-valid histories) and C05 (boundary / invalid / cross-type heavy histories).

A case: {'specs': [tag spec...], 'ops': [op + {'sess': 0|1, 'wrap': bool}...]}
"""
from __future__ import annotations

from hypothesis import strategies as st

from . import common, model as M, refcodec as rc, sim

NAME_POOL = ['A', 'b', 'Tag', 'SCADA', 'scada_2', 'Motor.Speed', 'Motor.Torque', 'x.y.z', 'Caf\xe9', '\xd1and\xfa', 'T1', 'T2',
             'LongTagName_0123456789', 'q', 'Zz', 'odd', 'even', 'T3', 'T4', 'T5', 'T6', 'Pump.On', 'Pump.Off', 'k9',
             'Ma\xdf', 'Mass', '\xb5m', 'Stra\xdfe', 'STRASSE']
# (ISO-8859-1 names are documented as supported with case-insensitive lookup; 'Ma\xdf' / 'Mass' and 'Stra\xdfe' / 'STRASSE' differ in
#  more than case: lower-casing never maps sharp s to 'ss', so they are different tags)
CLASSES = [0x93, 0x94, 0xFE, 0x104, 0x3E8, 0xFFFF]

# ------------------------------------------------------------------------------------------------
# value strategies


def int_values(t):
    lo, hi = rc.INT_RANGES[t]
    edge = [lo, lo + 1, -1, 0, 1, hi - 1, hi]
    edge = sorted({e for e in edge if lo <= e <= hi})
    return st.one_of(st.sampled_from(edge), st.integers(lo, hi))


def value_of(t):
    if t == 'BOOL':
        return st.booleans()
    if t in M.INT_TYPES:
        return int_values(t)
    if t == 'REAL':
        return st.one_of(st.sampled_from([0.0, -0.0, 1.0, -1.5, 3.4028234663852886e+38, 1.401298464324817e-45, 16777217.0]),
                         st.floats(width=32, allow_nan=False, allow_infinity=False))
    if t == 'LREAL':
        return st.one_of(st.sampled_from([0.0, -0.0, 1.0, 1e308, 5e-324, 0.1]),
                         st.floats(allow_nan=False, allow_infinity=False))
    if t == 'SSTRING':
        return st.one_of(st.sampled_from(['', 'a', 'ab', 'abc']), st.text(st.characters(min_codepoint=1, max_codepoint=255), max_size=12),
                         st.text(st.characters(min_codepoint=32, max_codepoint=126), min_size=200, max_size=255))
    if t == 'STRING':
        return st.one_of(st.sampled_from(['', 'a', 'ab', 'abc']), st.text(st.characters(min_codepoint=1, max_codepoint=255), max_size=12),
                         st.text(st.characters(min_codepoint=32, max_codepoint=126), min_size=250, max_size=300))
    raise AssertionError(t)


# ------------------------------------------------------------------------------------------------
# configurations


@st.composite
def specs_strategy(draw, types=M.ALL_TYPES, allow_big=True):
    n = draw(st.integers(2, 6))
    many = draw(st.integers(0, 9)) == 0
    if many:
        n = draw(st.integers(11, 15))       # enough auto-allocated tags for two-digit attribute numbers in one instance
    names = draw(st.lists(st.sampled_from(NAME_POOL), min_size=n, max_size=n, unique_by=lambda s: s.lower()))
    # no name may be a dotted prefix of another (resolution is by longest symbolic prefix already known)
    keep = []
    for nm in names:
        low = nm.lower()
        if any(low.startswith(k.lower() + '.') or k.lower().startswith(low + '.') for k in keep):
            continue
        keep.append(nm)
    specs = []
    used = {}
    for nm in keep:
        placement = 'auto' if many else draw(st.sampled_from(['auto', 'auto', 'addr', 'addr', 'alias']))
        if placement == 'alias' and used:
            addr = draw(st.sampled_from(sorted(used)))
            t, length = used[addr]
            specs.append({'name': nm, 'type': t, 'length': length, 'address': list(addr)})
            continue
        t = draw(st.sampled_from(list(types)))
        length = draw(st.one_of(st.just(1), st.integers(2, 40), st.integers(2, 6)))
        if many:
            length = min(length, 6)
        elif allow_big and draw(st.integers(0, 19)) == 0:
            length = 600
        address = None
        if placement != 'auto':
            for _ in range(4):
                addr = (draw(st.sampled_from(CLASSES)), draw(st.sampled_from([1, 1, 2, 3, 300])), draw(st.integers(1, 6)))
                if addr not in used:
                    address = list(addr)
                    used[addr] = (t, length)
                    break
        specs.append({'name': nm, 'type': t, 'length': length, 'address': address})
    return specs


# ------------------------------------------------------------------------------------------------
# operations


def _request_types_for(t, mode):
    """Request data types to try for a write to a tag of type t."""
    if t in M.STRING_TYPES:
        return [t] if mode == 'valid' else [t, t, 'SSTRING', 'STRING', 'INT']
    if mode == 'valid':
        return [t]
    twin = {'SINT': 'USINT', 'INT': 'UINT', 'DINT': 'UDINT', 'LINT': 'ULINT', 'USINT': 'SINT', 'UINT': 'INT', 'UDINT': 'DINT',
            'ULINT': 'LINT'}.get(t)
    return [t, t] + ([twin, twin] if twin else []) + (['BOOL', 'BOOL'] if t != 'BOOL' else []) + list(M.FIXED_TYPES)


@st.composite
def op_strategy(draw, specs, mode):
    """mode 'valid': in-bounds, same-type (C03).  mode 'edge': boundaries, out-of-bounds, cross-type, unknown (C05).
    mode 'mixed': mostly valid requests with one in eight drawn as 'edge' (C03: refused requests must change nothing either)."""
    if mode == 'mixed':
        mode = 'edge' if draw(st.integers(0, 7)) == 0 else 'valid'
    if mode == 'edge' and draw(st.integers(0, 11)) == 0:
        # unknown tag / unknown object
        kind = draw(st.sampled_from(['tag', 'object', 'attribute', 'attribute']))
        op = {'svc': draw(st.sampled_from(['read_tag', 'write_tag', 'get_attr', 'read_frag', 'write_frag', 'gaa', 'gal', 'set_attr', 'set_attr'])), 'tag': 'NoSuchTag',
              'form': 'sym', 'case': 0, 'elem': None, 'count': 1, 'type': 'INT', 'values': [1], 'offset': 0,
              'sess': draw(st.integers(0, 1)), 'wrap': True}
        if op['svc'] == 'set_attr':
            # Set Attribute Single addressed to an object that does not exist, with the attribute number and exactly the payload
            # size of one of the Message Router's own (auto-allocated) tags
            autos = [sp for sp in specs if not sp.get('address') and sp['type'] in M.FIXED_TYPES]
            k = draw(st.integers(1, max(1, len([sp for sp in specs if not sp.get('address')]))))
            sp = autos[draw(st.integers(0, len(autos) - 1))] if autos else {'type': 'INT', 'length': 1}
            vals = draw(st.lists(value_of(sp['type']), min_size=sp['length'], max_size=sp['length']))
            op['unknown_object'] = draw(st.sampled_from([[0x95, 1, k], [0x02, 7, k], [0xFFFE, 300, k]]))
            op['form'] = 'num'
            op['values'] = vals
            op['raw'] = rc.enc_values(sp['type'], vals).hex()
        elif kind == 'object' or (op['svc'] in ('gaa', 'gal') and kind != 'tag'):
            op['unknown_object'] = draw(st.sampled_from([[0x95, 1, 1], [0x93, 77, 1], [0xFFFE, 300, 1]]))
            op['form'] = 'num'
        elif op['svc'] in ('gaa', 'gal'):
            op['svc'] = 'read_tag'
        elif kind == 'attribute':
            # an attribute that does not exist in an object that does (Message Router, or an addressed tag's instance)
            addressed = [s['address'] for s in specs if s.get('address')]
            base = draw(st.sampled_from(addressed + [[0x02, 1, 0]]))
            op['unknown_object'] = [base[0], base[1], draw(st.sampled_from([200, 250, 255]))]
            op['unknown_attribute'] = True
            op['form'] = 'num'
        return op
    i = draw(st.integers(0, len(specs) - 1))
    s = specs[i]
    t, L = s['type'], s['length']
    svc = draw(st.sampled_from(['read_tag', 'read_frag', 'write_tag', 'write_frag', 'get_attr', 'set_attr',
                                'read_tag', 'write_tag']))
    op = {'svc': svc, 'tag': s['name'], 'form': draw(st.sampled_from(['sym', 'sym', 'num'])),
          'case': draw(st.sampled_from([0, 0, 0xFFFF, 0x5555, 0x0F0F])), 'sess': draw(st.integers(0, 1)),
          'wrap': draw(st.booleans())}
    if svc in ('get_attr', 'set_attr'):
        op['form'] = 'num'
        op['elem'] = None
        if svc == 'set_attr':
            n = L
            if mode == 'edge' and draw(st.integers(0, 3)) == 0:
                n = draw(st.sampled_from([max(0, L - 1), L + 1]))
            op['values'] = draw(st.lists(value_of(t), min_size=n, max_size=n))
            if mode == 'edge' and t in M.FIXED_TYPES and rc.tsize(t) > 1 and draw(st.integers(0, 3)) == 0:
                # a payload that is not a whole number of elements: the exact data plus / minus 1..size-1 stray bytes
                k = draw(st.integers(1, rc.tsize(t) - 1))
                raw = rc.enc_values(t, draw(st.lists(value_of(t), min_size=L, max_size=L)))
                op['raw'] = (raw + bytes(draw(st.lists(st.integers(0, 255), min_size=k, max_size=k))) if draw(st.booleans())
                             else raw[:-k]).hex()
        return op
    if mode == 'valid':
        e = draw(st.integers(0, L - 1))
        n = draw(st.integers(1, L - e))
        if draw(st.integers(0, 3)) == 0:
            e, n = 0, L
    else:
        e = draw(st.sampled_from([0, L - 1, L, L + 1, 65535, 2 ** 32 - 1] + list(range(min(L, 4)))))
        n = draw(st.sampled_from(sorted({0, 1, max(0, L - e), max(0, L - e) + 1, L, L + 1, 65535} & set(range(0, 65536)))))
    op['elem'] = e if (e or draw(st.booleans())) else None
    op['count'] = n
    if svc == 'read_frag':
        op['wrap'] = True       # a bare 0x52 request is indistinguishable from an Unconnected Send (documented)
        op['offset'] = 0
        if t in M.FIXED_TYPES and n > 1 and draw(st.integers(0, 2)) == 0:
            k = draw(st.integers(0, n - 1)) if mode == 'valid' else draw(st.sampled_from([0, 1, n - 1, n, n + 1]))
            op['offset'] = k * rc.tsize(t)
            if mode == 'edge' and draw(st.integers(0, 2)) == 0:
                # byte offsets in the upper half of the 32-bit range (a whole number of elements below 2**32), addressed from the
                # tag's last element (where an offset misread as negative would land inside the tag)
                op['offset'] = (2 ** 32 - draw(st.integers(1, 6)) * rc.tsize(t)) if draw(st.booleans()) else 2 ** 31
                if draw(st.booleans()):
                    op['elem'], op['count'] = L - 1, 1
    if svc in ('write_tag', 'write_frag'):
        rt = draw(st.sampled_from(_request_types_for(t, mode)))
        op['type'] = rt
        nvals = min(n, 700)
        if svc == 'write_frag':
            op['offset'] = 0
            if rt in M.FIXED_TYPES and n > 1 and (rt == t or rc.tsize(rt) == rc.tsize(t)):
                k = draw(st.integers(0, n - 1))
                if mode == 'edge' and draw(st.integers(0, 3)) == 0:
                    k = draw(st.sampled_from([n, n + 1]))
                op['offset'] = k * rc.tsize(rt)
                nvals = max(1, min(700, n - k)) if k < n else 1
                if mode == 'edge' and draw(st.integers(0, 2)) == 0:
                    op['offset'] = (2 ** 32 - draw(st.integers(1, 6)) * rc.tsize(rt)) if draw(st.booleans()) else 2 ** 31
                    nvals = 1
                    if draw(st.booleans()):
                        op['elem'], op['count'] = L - 1, 1
                if nvals > 1:
                    nvals = draw(st.integers(1, nvals))
        nvals = max(1, nvals)
        if draw(st.integers(0, 5 if mode == 'edge' else 11)) == 0:
            nvals += draw(st.integers(1, 3))        # more data than the declared element count
        op['values'] = draw(st.lists(value_of(rt), min_size=nvals, max_size=nvals))
        if svc == 'write_tag':
            surplus = n and len(op['values']) > n
            if not surplus:
                op['count'] = len(op['values'])
    return op


@st.composite
def step_strategy(draw, specs, mode):
    if draw(st.integers(0, 7)) == 0:
        members = [draw(op_strategy(specs, mode)) for _ in range(draw(st.integers(1, 5)))]
        # a member addressing an unknown *tag* by name cannot be parsed inside a bundle any differently than alone; keep it
        return {'svc': 'bundle', 'members': members, 'sess': draw(st.integers(0, 1)), 'wrap': True, 'tag': ''}
    return draw(op_strategy(specs, mode))


@st.composite
def case_strategy(draw, mode, max_ops, types=M.ALL_TYPES, allow_big=True):
    specs = draw(specs_strategy(types=types, allow_big=allow_big))
    nops = draw(st.integers(1, max_ops))
    # locality: half of the steps work on one or two "hot" tags, so that multi-step interactions on one tag (a write of
    # one kind, another write, a read) are common and not left to chance
    hot = [specs[draw(st.integers(0, len(specs) - 1))] for _ in range(draw(st.integers(1, 2)))]
    ops = [draw(step_strategy(hot if draw(st.booleans()) else specs, mode)) for _ in range(nops)]
    return {'specs': specs, 'ops': ops}


# ------------------------------------------------------------------------------------------------
# predicate


def numeric_addresses(dev, mdl):
    """Auto-allocated tags get their Message Router attribute number by inspection of the symbol table."""
    for s in dev.specs:
        ids = dev.resolve_tag(s['name']) if hasattr(dev, 'resolve_tag') else dev.device.resolve_tag(s['name'])
        assert ids is not None, 'tag %r not set up' % s['name']
        mdl.set_numeric_address(s['name'], ids)


def out_of_type_range(dev):
    """Names of tags whose stored values cannot be represented in the tag's own type."""
    bad = []
    for s in dev.specs:
        try:
            rc.enc_values(s['type'], dev.values(s['name']))
        except Exception:
            bad.append(s['name'])
    return bad


def run_bundle(case, stats, clause, dev, mdl, sess, step, op, classes):
    """A Multiple Service Packet as one step: every member is judged like a single request.  -> False to stop."""
    msgs, members = [], []
    for m in op['members']:
        name = mdl.lower.get(m['tag'].lower())
        if m.get('unknown_object'):
            address, ttype = tuple(m['unknown_object']), None
        elif name is None:
            address, ttype = None, None
        else:
            address, ttype = mdl.tags[name]['address'], mdl.tags[name]['type']
        if m['svc'] == 'set_attr':
            if not m.get('values'):
                stats.exclude('bundled set_attr without data')
                continue
            try:
                rc.enc_values(ttype or 'INT', m['values'])
            except Exception:
                stats.exclude('set_attr values not encodable')
                continue
        msgs.append(M.op_message(m, ttype, address))
        members.append(m)
    if not msgs:
        return True
    before = dev.snapshot()
    out = sess.send(rc.req_multiple(msgs))
    classes.add('bundle:%d' % min(len(members), 5))
    named_unknown = any(mdl.lower.get(m['tag'].lower()) is None and not m.get('unknown_object') for m in members)
    if out['reply'] is None:
        # a symbolic member that cannot be resolved ends the session for the whole bundle (as it does alone)
        if not named_unknown:
            stats.fail(clause, 'bundle-without-cip-reply', case, observed={'step': step, 'outcome': out['kind'], 'enip_status': out['enip_status'],
                       'error': out.get('error')}, expected='a Multiple Service Packet reply')
        if dev.snapshot() != before:
            stats.fail(clause, 'refused-or-read-request-changed-tags', case, observed={'step': step, 'bundle': True}, expected='no change')
            return False
        return True
    rb = out['reply']
    try:
        parts = [rc.dec_mr_reply(x) for x in rc.dec_multiple_body(rb['data'])] if rb['status'] == 0 else None
    except rc.RefDecodeError as exc:
        stats.fail(clause, 'bundle-reply-undecodable', case, observed={'step': step, 'error': str(exc)}, expected='well-formed bundle reply')
        return False
    if parts is None or len(parts) != len(members):
        stats.fail(clause, 'bundle-reply-shape', case, observed={'step': step, 'reply': M._r(rb)}, expected='status 0 and one member reply per request')
        return False
    took = False
    for m, r in zip(members, parts):
        if m.get('unknown_object'):
            exp = {'kind': 'noattr'} if (m.get('unknown_attribute') and m['svc'] not in ('get_attr', 'set_attr')) else {'kind': 'unknown'}
        else:
            exp = M.expect(mdl, m)
        for sig, detail in M.judge(mdl, m, exp, {'kind': 'reply', 'enip_status': 0, 'reply': r}):
            stats.fail(clause, 'bundled:' + sig, case, observed={'step': step, 'member': m, 'detail': detail},
                       expected='each bundled request behaves as the typed-array model requires (%s)' % exp['kind'])
        classes.add('bundled:%s:%s' % (m['svc'], exp['kind']))
        took = took or bool(exp.get('took'))
    after = dev.snapshot()
    if not took and after != before:
        stats.fail(clause, 'refused-or-read-request-changed-tags', case, observed={'step': step, 'bundle': True,
                   'changed': [n for n in after if after[n] != before[n]]}, expected='no tag changes unless a member write took effect')
    if after != mdl.snapshot():
        diff = [n for n in after if after[n] != mdl.snapshot()[n]]
        stats.fail(clause, 'state-differs-from-model', case, observed={'step': step, 'bundle': True, 'tags': diff},
                   expected='only the addressed elements of the addressed tags change')
        return False
    return True


class TcpBackend(object):
    """The same history driver against a real TCP simulator started through enip.main.main() (one per process): tags are
    built by main() itself from its command line; state is inspected in-process and reset to the simulator's own initial
    values before every history."""

    def __init__(self, specs):
        self.server = sim.TcpServer(specs)
        self.specs = self.server.specs
        s = sim.TcpSession(self.server)
        s.send(rc.req_read_tag([{'symbolic': specs[0]['name']}], 1))      # first request makes the simulator set up its tags
        s.close()
        self.initial = {sp['name']: list(self.server.values(sp['name'])) for sp in self.specs}
        self.open = []

    def reset(self):
        for name, vals in self.initial.items():
            self.server.set_values(name, list(vals))

    def resolve_tag(self, name):
        from cpppo.server.enip import device
        return device.resolve_tag(name)

    def snapshot(self):
        return self.server.snapshot()

    def values(self, name):
        return self.server.values(name)

    def session(self, addr):
        t = sim.TcpSession(self.server, timeout=20.0)
        t.alive = True
        orig = t.send

        def send(message, wrap=True, route_path=None):
            out = orig(message, wrap=wrap, route_path=route_path)
            if out['kind'] == 'timeout':
                raise common.HarnessError('timeout waiting for the TCP simulator')
            if out['reply'] is None:
                t.alive = False
            return out
        t.send = send
        self.open.append(t)
        return t

    def close(self):
        for t in self.open:
            t.close()
        self.open = []


def run_history(case, stats, pid, clause, backend=None):
    specs, ops = case['specs'], case['ops']
    dev = backend if backend is not None else sim.Device(specs)
    if backend is not None:
        backend.reset()
    try:
        mdl = M.Model(specs)
        numeric_addresses(dev, mdl)
        port = [10001]
        sessions = {}

        def session(k):
            s = sessions.get(k)
            if s is None or not s.alive:
                port[0] += 1
                s = sessions[k] = (dev.session(('127.0.0.%d' % (k + 1), port[0])) if backend is not None
                                   else sim.Session(dev, ('127.0.0.%d' % (k + 1), port[0])))
            return s

        classes = set()
        written_by = {}           # (tag values id, index) -> (service family, form)
        wrote_any = False
        nontrivial = False
        for step, op in enumerate(ops):
            if op['svc'] == 'bundle':
                if not run_bundle(case, stats, clause, dev, mdl, session(op['sess']), step, op, classes):
                    break
                continue
            name = mdl.lower.get(op['tag'].lower())
            address = None
            ttype = None
            if name is not None:
                address = mdl.tags[name]['address']
                ttype = mdl.tags[name]['type']
            if op.get('unknown_object'):
                address = tuple(op['unknown_object'])
                exp = {'kind': 'unknown'}
                if op.get('unknown_attribute') and op['svc'] not in ('get_attr', 'set_attr'):
                    exp = {'kind': 'noattr'}
            else:
                exp = M.expect(mdl, op)
            if exp['kind'] == 'attr_write' or (op['svc'] == 'set_attr' and 'values' in op):
                try:
                    rc.enc_values(ttype, op['values'])
                except Exception:
                    stats.exclude('set_attr values not encodable')
                    continue
            try:
                msg = M.op_message(op, ttype, address)
            except Exception as exc:
                raise common.HarnessError('cannot encode op %r: %r' % (op, exc))
            before = dev.snapshot()
            sess = session(op['sess'])
            out = sess.send(msg, wrap=op.get('wrap', True))
            problems = M.judge(mdl, op, exp, out)
            classes.add('%s:%s' % (op['svc'], exp['kind']))
            classes.add('form:' + op.get('form', 'sym'))
            if op.get('case'):
                classes.add('name-case-varied')
            after = dev.snapshot()
            # refusal clause: no state change unless a write took effect
            if not exp.get('took') and after != before:
                changed = [n for n in after if after[n] != before[n]]
                problems.append(('refused-or-read-request-changed-tags', {'changed': changed, 'expectation': exp['kind']}))
            for sig, detail in problems:
                stats.fail(clause, sig, case, observed={'step': step, 'op': op, 'detail': detail},
                           expected='reply and tag state as the typed-array model requires (%s)' % exp['kind'])
            if exp.get('took'):
                wrote_any = True
                tag = mdl.tags[exp['name']]
                fam = 'attr' if op['svc'] == 'set_attr' else 'frag' if op['svc'] == 'write_frag' else 'tag'
                idxs = [p[0] for p in exp['plan']] if exp['kind'] == 'write' else range(tag['length'])
                for ix in idxs:
                    written_by[(id(tag['values']), ix)] = (fam, op.get('form'), exp['name'])
                if exp['kind'] == 'write' and not exp['exact']:
                    classes.add('accepted-out-of-range-cross-type')
                if exp['kind'] == 'write' and op['type'] != exp['type']:
                    classes.add('accepted-cross-type')
            if exp['kind'] in ('read', 'attr_read') and not problems:
                tag = mdl.tags[exp['name']]
                fam = 'attr' if op['svc'] == 'get_attr' else 'frag' if op['svc'] == 'read_frag' else 'tag'
                lo = exp.get('start', 0)
                for ix in range(lo, lo + len(exp['data'])):
                    w = written_by.get((id(tag['values']), ix))
                    if w and (w[0] != fam or w[1] != op.get('form') or w[2] != exp['name']):
                        nontrivial = True
                        classes.add('read-back-via-other-service-or-form')
                        break
            if exp['kind'] in ('range', 'type', 'fail', 'unknown', 'noattr') and wrote_any and pid == 'C05':
                nontrivial = True
            # invariant: implementation state == model state; every tag representable in its own type
            if after != mdl.snapshot():
                bad = out_of_type_range(dev)
                diff = [n for n in after if after[n] != mdl.snapshot().get(n)]
                if bad and exp.get('took') and not exp.get('exact', True):
                    stats.fail(clause, 'accepted-write-stored-value-outside-tag-type', case,
                               observed={'step': step, 'op': op, 'unrepresentable_tags': bad},
                               expected='an acknowledged write leaves the tag holding values of its own type '
                                        '(refuse with 0x2107, or store the value as represented in the tag type)')
                else:
                    stats.fail(clause, 'state-differs-from-model', case,
                               observed={'step': step, 'op': op, 'tags': diff,
                                         'impl': {n: after[n][:12] for n in diff}, 'model': {n: mdl.snapshot()[n][:12] for n in diff}},
                               expected='only the addressed elements of the addressed tag change, to the written values')
                break   # the model is no longer in step; stop this history
        else:
            # closing sweep: every tag is readable by both sessions and both address forms
            for s in specs:
                if s['type'] in M.STRING_TYPES and s['length'] > 4:
                    continue
                for k, form in ((0, 'sym'), (1, 'num')):
                    op = {'svc': 'read_tag', 'tag': s['name'], 'form': form, 'case': 0, 'elem': None, 'count': s['length']}
                    exp = M.expect(mdl, op)
                    out = session(k).send(M.op_message(op, s['type'], mdl.tags[s['name']]['address']))
                    for sig, detail in M.judge(mdl, op, exp, out):
                        stats.fail(clause, 'final-sweep:' + sig, case, observed={'op': op, 'detail': detail},
                                   expected='every tag remains readable on every session with the model values')
        if pid == 'C05' and 'accepted-cross-type' in classes:
            nontrivial = True
        stats.case(case, nontrivial=nontrivial, classes=sorted(classes))
    finally:
        dev.close()


# ------------------------------------------------------------------------------------------------
# TCP engine shared by C03 / C05: one generated configuration per worker process, served by enip.main.main()

_TCP = {}


def tcp_specs(seed, i):
    """The tag configuration of TCP shard i: drawn deterministically from the seed."""
    import hypothesis
    from hypothesis import given
    got = []

    @hypothesis.seed(common.shard_seed(seed, 500 + i))
    @common.hyp_settings(3)
    @given(specs_strategy(allow_big=False))
    def draw(specs):
        got.append(specs)

    draw()
    return got[-1]


def pred_tcp(case, stats, pid):
    import os
    key = common.canon(case['specs'])
    if _TCP.get('pid') != os.getpid() or _TCP.get('key') != key:
        if _TCP.get('pid') == os.getpid():
            raise common.HarnessError('one TCP configuration per process')
        sim.TcpServer._started = False
        _TCP.update(pid=os.getpid(), key=key, backend=None)
        try:
            _TCP['backend'] = TcpBackend(case['specs'])
        except (AssertionError, RuntimeError) as exc:
            _TCP['failed'] = '%s: %s' % (type(exc).__name__, str(exc)[:200])
    if _TCP.get('backend') is None:
        # main() was given a tag configuration inside the documented domain (ISO-8859-1 names, the 13 element types, @c/i/a
        # addresses) and the simulator does not start or cannot serve its first session
        stats.case(case, classes=['tcp:configuration-refused'])
        stats.fail('tcp-history', 'tcp:simulator-cannot-serve-this-tag-configuration', case,
                   observed={'error': _TCP.get('failed'), 'tags': [sim.tag_arg(sp) for sp in case['specs']]},
                   expected='the simulator starts and registers a session')
        return
    run_history(case, stats, pid, 'tcp-history', backend=_TCP['backend'])


def tcp_shard(pid, mode, seed, i, n, max_ops, pred):
    specs = tcp_specs(seed, i)
    s = common.Stats()
    strat = st.lists(step_strategy(specs, mode), min_size=1, max_size=max_ops).map(lambda ops: {'specs': specs, 'ops': ops})
    common.hyp_run(s, strat, pred, n, common.shard_seed(seed, 600 + i), 'tcp-history', pid, shrink=False)
    s.count('tcp:configurations')
    return s
